package main

// C19 / C20: histories against a real testdirectory.Directory, issued by a
// real go-ldap client one operation at a time.

import (
	"fmt"
	"strconv"
	"strings"
	"sync"

	"github.com/go-ldap/ldap/v3"
	"github.com/hashicorp/go-hclog"
	"github.com/jimlambrt/gldap"
	"github.com/jimlambrt/gldap/testdirectory"
)

func init() {
	generators["c19"] = genC19
	generators["c19hist"] = genC19Hist
	generators["c20shared"] = genC20Shared
	generators["c20paren"] = genC20Paren
	generators["c20multi"] = genC20Multi
	generators["c20"] = genC20
	generators["c20k3"] = genC20K3
	runners["dir"] = runDir
}

// quietT satisfies testdirectory.TestingT without a *testing.T
type quietT struct {
	mu     sync.Mutex
	failed bool
	msgs   []string
}

func (t *quietT) Errorf(format string, args ...interface{}) {
	t.mu.Lock()
	defer t.mu.Unlock()
	t.failed = true
	t.msgs = append(t.msgs, fmt.Sprintf(format, args...))
}
func (t *quietT) FailNow() {
	panic(harnessError("testdirectory FailNow: " + strings.Join(t.msgs, "; ")))
}
func (t *quietT) Log(args ...interface{}) {}

// entries of one pool that carry the same values for an attribute are given
// the SAME []string, as testdirectory.NewUsers does with WithMembersOf (every
// user gets the caller's slice): what one entry's modification does must not
// show in another entry
func parseEntry(t *Toks, shared map[string][]string) *gldap.Entry {
	dn := t.Str()
	n := t.Int()
	e := &gldap.Entry{DN: dn}
	for i := 0; i < n; i++ {
		name := t.Str()
		vals := t.StrList()
		if vals == nil {
			vals = []string{}
		}
		key := fmt.Sprintf("%s\x00%d\x00%s", name, len(vals), strings.Join(vals, "\x00"))
		if v, ok := shared[key]; ok && len(vals) > 0 {
			vals = v
		} else if shared != nil {
			shared[key] = vals
		}
		if name == "password" && (len(dn)+len(vals))%2 == 0 {
			// an attribute written as a struct literal with its string values only (both value
			// fields are exported; everything in gldap and the directory reads Values)
			e.Attributes = append(e.Attributes, &gldap.EntryAttribute{Name: name, Values: vals})
			continue
		}
		e.Attributes = append(e.Attributes, gldap.NewEntryAttribute(name, vals))
	}
	return e
}

func parseEntries(t *Toks) []*gldap.Entry {
	n := t.Int()
	es := make([]*gldap.Entry, 0, n)
	shared := map[string][]string{}
	for i := 0; i < n; i++ {
		es = append(es, parseEntry(t, shared))
	}
	return es
}

func codeOf(err error) int {
	if err == nil {
		return 0
	}
	if le, ok := err.(*ldap.Error); ok {
		return int(le.ResultCode)
	}
	return -1
}

func entriesStr(es []*ldap.Entry) string {
	parts := make([]string, len(es))
	for i, e := range es {
		as := make([]string, len(e.Attributes))
		for j, a := range e.Attributes {
			as[j] = hxs(a.Name) + " " + hexList(a.Values)
		}
		parts[i] = hxs(e.DN) + " " + listStr(as)
	}
	return listStr(parts)
}

func runDir(t *Toks) string {
	userDN, groupDN := t.Str(), t.Str()
	anon := t.Bool()
	users := parseEntries(t)
	groups := parseEntries(t)
	logger := hclog.New(&hclog.LoggerOptions{Level: hclog.Off})
	var td *testdirectory.Directory
	var qt *quietT
	for attempt := 0; attempt < 6; attempt++ {
		// the directory picks a free port and binds it a moment later: with many runs in
		// parallel another process can take it in between (Start then reports a failure)
		qt = &quietT{}
		td = testdirectory.Start(qt, testdirectory.WithNoTLS(qt), testdirectory.WithLogger(qt, logger),
			testdirectory.WithDefaults(qt, &testdirectory.Defaults{Users: users, Groups: groups, AllowAnonymousBind: anon, UserDN: userDN, GroupDN: groupDN, UPNDomain: "example.com"}))
		qt.mu.Lock()
		failed := qt.failed
		qt.mu.Unlock()
		if !failed {
			break
		}
		td.Stop()
		td = nil
	}
	if td == nil {
		return "HARNESS-ERROR the test directory could not be started"
	}
	defer td.Stop()
	conn, err := ldap.DialURL(fmt.Sprintf("ldap://%s:%d", td.Host(), td.Port()))
	if err != nil {
		return "HARNESS-ERROR dial " + err.Error()
	}
	defer conn.Close()
	nops := t.Int()
	var out []string
	for i := 0; i < nops; i++ {
		switch t.Next() {
		case "bind":
			dn, pw := t.Str(), t.Str()
			var err error
			if pw == "" {
				err = conn.UnauthenticatedBind(dn)
			} else {
				err = conn.Bind(dn, pw)
			}
			out = append(out, fmt.Sprintf("R %d 0", codeOf(err)))
		case "add":
			dn := t.Str()
			req := ldap.NewAddRequest(dn, nil)
			n := t.Int()
			for j := 0; j < n; j++ {
				name := t.Str()
				req.Attribute(name, t.StrList())
			}
			out = append(out, fmt.Sprintf("R %d 0", codeOf(conn.Add(req))))
		case "modify":
			dn := t.Str()
			req := ldap.NewModifyRequest(dn, nil)
			n := t.Int()
			for j := 0; j < n; j++ {
				op := int64T(t)
				ty := t.Str()
				vals := t.StrList()
				req.Changes = append(req.Changes, ldap.Change{Operation: uint(op), Modification: ldap.PartialAttribute{Type: ty, Vals: vals}})
			}
			out = append(out, fmt.Sprintf("R %d 0", codeOf(conn.Modify(req))))
		case "delete":
			dn := t.Str()
			out = append(out, fmt.Sprintf("R %d 0", codeOf(conn.Del(ldap.NewDelRequest(dn, nil)))))
		case "search":
			base, flt := t.Str(), t.Str()
			res, err := conn.Search(ldap.NewSearchRequest(base, ldap.ScopeWholeSubtree, ldap.NeverDerefAliases, 0, 0, false, flt, nil, nil))
			var es []*ldap.Entry
			if res != nil && err == nil {
				es = res.Entries
			}
			out = append(out, fmt.Sprintf("R %d %s", codeOf(err), entriesStr(es)))
		case "setusers":
			td.SetUsers(parseEntries(t)...)
			out = append(out, "R 0 0")
		case "setgroups":
			td.SetGroups(parseEntries(t)...)
			out = append(out, "R 0 0")
		case "setanon":
			td.SetAllowAnonymousBind(t.Bool())
			out = append(out, "R 0 0")
		case "users":
			// the Users() getter: what the directory says its user entries are now
			us := td.Users()
			parts := make([]string, len(us))
			for k, e := range us {
				as := make([]string, len(e.Attributes))
				for j, a := range e.Attributes {
					as[j] = hxs(a.Name) + " " + hexList(a.Values)
				}
				parts[k] = hxs(e.DN) + " " + listStr(as)
			}
			out = append(out, "R 0 "+listStr(parts))
		}
	}
	if qt.failed {
		return "HARNESS-ERROR testdirectory: " + strings.Join(qt.msgs, "; ")
	}
	return listStr(out)
}

// ---------------------------------------------------------------------------
// generators

const dirUserDN = "ou=people,dc=example,dc=org"
const dirGroupDN = "ou=groups,dc=example,dc=org"

func entryStr2(dn string, attrs [][2]interface{}) string {
	parts := make([]string, len(attrs))
	for i, a := range attrs {
		parts[i] = hxs(a[0].(string)) + " " + hexList(a[1].([]string))
	}
	return hxs(dn) + " " + listStr(parts)
}

// DNs chosen so that none is a substring of another (cn=alice / cn=alicia ...)
var userNames = []string{"alice", "bob", "carol", "dave", "eve", "frank"}
var groupNames = []string{"admin", "staff", "guests"}

func userDNOf(n string) string  { return "cn=" + n + "," + dirUserDN }
func groupDNOf(n string) string { return "cn=" + n + "," + dirGroupDN }

func (g *Gen) userEntry(n string) string {
	r := g.rng
	attrs := [][2]interface{}{{"name", []string{n}}}
	if r.Chance(80) {
		attrs = append(attrs, [2]interface{}{"password", []string{"pw-" + n}})
	}
	if r.Chance(50) {
		attrs = append(attrs, [2]interface{}{"email", []string{n + "@example.org"}})
	}
	if r.Chance(20) {
		attrs = append(attrs, [2]interface{}{"description", []string{"d1", "d2"}})
	}
	if r.Chance(50) {
		attrs = append(attrs, [2]interface{}{"memberOf", []string{"admin", "dev"}})
	}
	return entryStr2(userDNOf(n), attrs)
}

func (g *Gen) groupEntry(n string) string {
	r := g.rng
	var members []string
	for _, u := range userNames {
		if r.Chance(30) {
			members = append(members, userDNOf(u))
		}
	}
	attrs := [][2]interface{}{{"name", []string{n}}}
	if len(members) > 0 {
		attrs = append(attrs, [2]interface{}{"member", members})
	}
	return entryStr2(groupDNOf(n), attrs)
}

func (g *Gen) dirOp() string {
	r := g.rng
	u := r.Pick(userNames)
	dn := userDNOf(u)
	switch r.Intn(14) {
	case 0, 1:
		attrs := []string{hxs("name") + " 1 " + hxs(u)}
		if r.Bool() {
			attrs = append(attrs, hxs("password")+" 1 "+hxs("pw-"+u))
		}
		if r.Chance(30) {
			attrs = append(attrs, hxs("email")+" 2 "+hxs("a@x")+" "+hxs("b@x"))
		}
		if r.Chance(15) { // duplicate attribute type: the later one wins (Go map)
			attrs = append(attrs, hxs("name")+" 1 "+hxs("second"))
		}
		return "add " + hxs(dn) + " " + listStr(attrs)
	case 2, 3, 4, 5:
		n := 1 + r.Intn(2)
		var cs []string
		for i := 0; i < n; i++ {
			op := r.Intn(3)
			if r.Chance(5) {
				op = 3
			}
			ty := r.Pick([]string{"email", "description", "name", "phone", "memberOf"})
			var vals []string
			for j := r.Intn(4); j > 0; j-- {
				vals = append(vals, hxs(r.Pick([]string{"v1", "v2", "new@example.org", "x"})))
			}
			cs = append(cs, fmt.Sprintf("%d %s %s", op, hxs(ty), listStr(vals)))
		}
		return "modify " + hxs(dn) + " " + listStr(cs)
	case 6, 7:
		if r.Chance(20) {
			return "delete " + hxs(groupDNOf(r.Pick(groupNames)))
		}
		return "delete " + hxs(dn)
	case 8, 9, 10:
		switch r.Intn(5) {
		case 0:
			return "search " + hxs(dn) + " " + hxs("(objectClass=*)")
		case 1:
			return "search " + hxs(dirUserDN) + " " + hxs("(cn="+u+")")
		case 2:
			return "search " + hxs(dirGroupDN) + " " + hxs("(member="+dn+")")
		case 3:
			return "search " + hxs(dirGroupDN) + " " + hxs("(cn="+r.Pick(groupNames)+")")
		default:
			return "search " + hxs(strings.ToUpper(dirUserDN[:2])+dirUserDN[2:]) + " " + hxs("(|(cn="+u+")(cn="+r.Pick(userNames)+"))")
		}
	case 11:
		return "bind " + hxs(dn) + " " + hxs("pw-"+u)
	case 12:
		var es []string
		for _, n := range userNames {
			if r.Chance(50) {
				es = append(es, g.userEntry(n))
			}
		}
		return "setusers " + listStr(es)
	default:
		return "bind " + hxs(dn) + " " + hxs("wrong")
	}
}

// DNs with (balanced) parentheses next to DNs that contain what stands inside them: neither is a
// substring of the other, so they are different entries for every operation
func genC20Paren(g *Gen) {
	r := g.rng
	pairs := [][2]string{{"cn=Bob (admin)", "cn=admin"}, {"cn=Carol (ops)", "cn=ops"}, {"cn=x (y) z", "cn=y"}}
	for i := 0; i < g.n; i++ {
		pr := pairs[i%len(pairs)]
		a, b := pr[0]+","+dirUserDN, pr[1]+","+dirUserDN
		addOf := func(dn, name string) string {
			return "add " + hxs(dn) + " " + listStr([]string{hxs("name") + " 1 " + hxs(name)})
		}
		look := func(dn string) string { return "search " + hxs(dn) + " " + hxs("(objectClass=*)") }
		ops := []string{addOf(a, "first"), look(a), addOf(a, "again")}
		ops = append(ops, addOf(b, "second"), look(a), look(b))
		for s := 3 + r.Intn(4); s > 0; s-- {
			dn := []string{a, b}[r.Intn(2)]
			switch r.Intn(4) {
			case 0:
				ops = append(ops, "modify "+hxs(dn)+" 1 2 "+hxs("name")+" 1 "+hxs(r.Pick([]string{"v1", "v2"})))
			case 1:
				ops = append(ops, "modify "+hxs(dn)+" 1 0 "+hxs("email")+" 1 "+hxs("e@x"))
			case 2:
				ops = append(ops, "delete "+hxs(dn))
			default:
				ops = append(ops, addOf(dn, "re"))
			}
			ops = append(ops, look(a), look(b))
		}
		g.emit("dir", hxs(dirUserDN), hxs(dirGroupDN), "0", "0", "0", listStr(ops))
	}
}

// one Modify with two or three replace changes, later an add-value on an attribute replaced
// earlier in that request: every attribute keeps its own values
func genC20Multi(g *Gen) {
	r := g.rng
	for i := 0; i < g.n; i++ {
		n := r.Pick(userNames)
		dn := userDNOf(n)
		us := []string{entryStr2(dn, [][2]interface{}{{"name", []string{n}}, {"email", []string{"old@x"}}, {"phone", []string{"1"}}})}
		tys := []string{"email", "name", "phone"}
		k := 2 + r.Intn(2)
		var cs []string
		for j := 0; j < k; j++ {
			cs = append(cs, fmt.Sprintf("2 %s 1 %s", hxs(tys[j]), hxs(fmt.Sprintf("new-%s-%d", tys[j], i))))
		}
		look := "search " + hxs(dn) + " " + hxs("(objectClass=*)")
		ops := []string{"modify " + hxs(dn) + " " + listStr(cs), look}
		for j := 0; j < k; j++ {
			ops = append(ops, fmt.Sprintf("modify %s 1 0 %s 1 %s", hxs(dn), hxs(tys[j]), hxs(fmt.Sprintf("second-%d@example.com", j))), look)
		}
		g.emit("dir", hxs(dirUserDN), hxs(dirGroupDN), "0", listStr(us), "0", listStr(ops))
	}
}

// users built the way NewUsers(..., WithMembersOf(...)) builds them: every
// user carries the same value list.  Each modification of one user is followed
// by a look at all the others
func genC20Shared(g *Gen) {
	r := g.rng
	for i := 0; i < g.n; i++ {
		names := userNames[:2+r.Intn(3)]
		var us []string
		for _, n := range names {
			us = append(us, entryStr2(userDNOf(n), [][2]interface{}{{"name", []string{n}}, {"memberOf", []string{"admin", "dev"}}, {"description", []string{"d1", "d2", "d3"}}}))
		}
		var ops []string
		lookAll := func() {
			for _, n := range names {
				ops = append(ops, "search "+hxs(userDNOf(n))+" "+hxs("(objectClass=*)"))
			}
		}
		for s := 2 + r.Intn(4); s > 0; s-- {
			n := r.Pick(names)
			ty := r.Pick([]string{"memberOf", "description"})
			var vals []string
			for j := r.Intn(4); j > 0; j-- {
				vals = append(vals, hxs(r.Pick([]string{"ops", "qa", "x", "v2"})))
			}
			ops = append(ops, fmt.Sprintf("modify %s 1 %d %s %s", hxs(userDNOf(n)), []int{2, 2, 0, 1}[r.Intn(4)], hxs(ty), listStr(vals)))
			lookAll()
		}
		g.emit("dir", hxs(dirUserDN), hxs(dirGroupDN), "0", listStr(us), "0", listStr(ops))
	}
}

func genC20(g *Gen) {
	r := g.rng
	for i := 0; i < g.n; i++ {
		var us, gs []string
		for _, n := range userNames {
			if r.Chance(50) {
				us = append(us, g.userEntry(n))
			}
		}
		for _, n := range groupNames {
			if r.Chance(60) {
				gs = append(gs, g.groupEntry(n))
			}
		}
		nops := 5 + r.Intn(20)
		if g.tier == "thorough" {
			nops = 5 + r.Intn(36)
		}
		var ops []string
		for j := 0; j < nops; j++ {
			op := g.dirOp()
			ops = append(ops, op)
			if strings.HasPrefix(op, "modify ") && r.Chance(60) {
				// what a modification of one entry does to the others: look at another user
				ops = append(ops, "search "+hxs(userDNOf(r.Pick(userNames)))+" "+hxs("(objectClass=*)"))
			}
		}
		g.emit("dir", hxs(dirUserDN), hxs(dirGroupDN), b01(r.Chance(20)), listStr(us), listStr(gs), listStr(ops))
	}
}

// C19: user sets over a small DN x password alphabet (prefix DNs, duplicate
// DNs, users without a password attribute, empty passwords), all binds
func genC19(g *Gen) {
	r := g.rng
	// (the directory is started with Defaults.UPNDomain = example.com: a user named the way NewUsers
	// names them under that option, and the login name that is NOT its DN)
	dns := []string{"cn=a", "cn=ab", "cn=a,dc=x", "cn=b", "CN=A", "cn=a+uid=7,dc=x", "cn=", "userPrincipalName=eve@example.com," + dirUserDN}
	// other spellings of the same names: the bind DN must be EXACTLY a user's DN, so none of these
	// is a stored DN's equal (type case, blanks, separators, escapes, RDN order, trailing parts)
	spellings := []string{"CN=a", "cn=a, dc=x", "cn=a;dc=x", "cn=a,dc=x,", "cn=\\61", "cn=a,DC=x", "uid=7+cn=a,dc=x",
		"cn=a+uid=7, dc=x", "cn=a,dc=x,dc=", "Cn=ab", " cn=a", "cn=a ", "eve@example.com", "eve", "userPrincipalName=eve@example.com"}
	pws := []string{"", "p", "pq", "q"}
	for i := 0; i < g.n; i++ {
		k := r.Intn(5)
		var us []string
		for j := 0; j < k; j++ {
			dn := r.Pick(dns)
			var attrs [][2]interface{}
			switch r.Intn(6) {
			case 0: // no password attribute
				attrs = [][2]interface{}{{"name", []string{"x"}}}
			case 1: // password attribute with no values
				attrs = [][2]interface{}{{"password", []string{}}}
			case 2: // two values: only the first counts
				attrs = [][2]interface{}{{"password", []string{r.Pick(pws), r.Pick(pws)}}}
			case 3: // a second password attribute later in the list
				attrs = [][2]interface{}{{"name", []string{"x"}}, {"password", []string{r.Pick(pws)}}, {"password", []string{r.Pick(pws)}}}
			case 4: // differently-cased attribute name is not the password
				attrs = [][2]interface{}{{"Password", []string{r.Pick(pws)}}}
			default:
				attrs = [][2]interface{}{{"password", []string{r.Pick(pws)}}}
			}
			us = append(us, entryStr2(dn, attrs))
		}
		var ops []string
		for _, dn := range append(append(append([]string{}, dns...), "", "cn=zzz"), spellings...) {
			for _, pw := range pws {
				ops = append(ops, "bind "+hxs(dn)+" "+hxs(pw))
			}
		}
		if r.Bool() {
			ops = append(ops, "setanon "+b01(r.Bool()))
			for _, dn := range dns[:2] {
				for _, pw := range pws {
					ops = append(ops, "bind "+hxs(dn)+" "+hxs(pw))
				}
			}
		}
		g.emit("dir", hxs(dirUserDN), hxs(dirGroupDN), b01(r.Bool()), listStr(us), "0", listStr(ops))
	}
}

// C19 over histories: binds, then operations that change the user set (adds,
// deletes by the exact DN and by a DN that only the directory's matcher takes
// for the entry, SetUsers), each followed by the Users() probe and by binds as
// the users that were there before and are there now
func genC19Hist(g *Gen) {
	r := g.rng
	names := []string{"alice", "bob", "carol"}
	pwOf := func(n string) string { return "pw-" + n }
	for i := 0; i < g.n; i++ {
		var us []string
		present := map[string]bool{}
		for _, n := range names {
			if r.Chance(70) {
				us = append(us, entryStr2(userDNOf(n), [][2]interface{}{{"name", []string{n}}, {"password", []string{pwOf(n)}}}))
				present[n] = true
			}
		}
		bindAll := func(ops []string) []string {
			for _, n := range names {
				ops = append(ops, "bind "+hxs(userDNOf(n))+" "+hxs(pwOf(n)))
				if r.Chance(30) {
					ops = append(ops, "bind "+hxs(userDNOf(n))+" "+hxs("wrong"))
				}
			}
			return ops
		}
		var ops []string
		if r.Chance(80) {
			ops = bindAll(ops)
		}
		steps := 2 + r.Intn(5)
		for s := 0; s < steps; s++ {
			n := r.Pick(names)
			switch r.Intn(6) {
			case 0:
				ops = append(ops, "add "+hxs(userDNOf(n))+" "+listStr([]string{hxs("name") + " 1 " + hxs(n), hxs("password") + " 1 " + hxs(pwOf(n))}))
			case 1:
				ops = append(ops, "delete "+hxs(userDNOf(n)))
			case 2: // the RDN only: no entry has this DN, the directory's matcher may still find one
				ops = append(ops, "delete "+hxs("cn="+n))
			case 3: // a differently-cased spelling
				ops = append(ops, "delete "+hxs(strings.ToUpper(userDNOf(n)[:2])+userDNOf(n)[2:]))
			case 4:
				var es []string
				for _, m := range names {
					if r.Chance(50) {
						es = append(es, entryStr2(userDNOf(m), [][2]interface{}{{"password", []string{pwOf(m)}}}))
					}
				}
				ops = append(ops, "setusers "+listStr(es))
			default:
				ops = append(ops, "modify "+hxs(userDNOf(n))+" 1 2 "+hxs("password")+" 1 "+hxs("new-"+n))
				ops = append(ops, "users", "bind "+hxs(userDNOf(n))+" "+hxs("new-"+n))
			}
			ops = append(ops, "users")
			ops = bindAll(ops)
		}
		g.emit("dir", hxs(dirUserDN), hxs(dirGroupDN), b01(r.Chance(30)), listStr(us), "0", listStr(ops))
	}
}

// K3: entry DNs containing a character that match() strips from the filter it
// builds out of the DN: the entry cannot be found after it was added
func genC20K3(g *Gen) {
	for _, rdn := range []string{"cn=a*b", "cn=a(b", "cn=ab)", "cn=a|b", "|cn=ab", " cn=ab"} {
		dn := rdn + "," + dirUserDN
		ops := []string{
			"add " + hxs(dn) + " 1 " + hxs("name") + " 1 " + hxs("x"),
			"search " + hxs(dn) + " " + hxs("(objectClass=*)"),
			"modify " + hxs(dn) + " 1 0 " + hxs("email") + " 1 " + hxs("e"),
			"delete " + hxs(dn),
		}
		g.emit("dir", hxs(dirUserDN), hxs(dirGroupDN), "0", "0", "0", listStr(ops))
	}
}

var _ = strconv.Itoa
