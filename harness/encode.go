package main

// Harness-side RFC 4511 encoder of typed requests (independent of both gldap
// and the Coq model; used for raw end-to-end clients, for the negative C01
// frames and for streams) and the parser of the prefix notation.

import (
	"math"
	"strconv"

	"github.com/jimlambrt/gldap"
)

func init() {
	generators["c01dn"] = genC01DN
	generators["c01neg"] = genC01Neg
	generators["c02stream"] = genC02Stream
	generators["c02short"] = genC02Short
	generators["c02deep"] = genC02Deep
	runners["encode"] = runEncode
}

func nInt(cls, tag int, v int64) *Node {
	// minimal two's complement
	n := 1
	for x := v; x > 127 || x < -128; x >>= 8 {
		n++
	}
	b := make([]byte, n)
	for i := 0; i < n; i++ {
		b[n-1-i] = byte(v >> (8 * uint(i)))
	}
	return &Node{Cls: cls, Tag: tag, Data: b}
}
func nOct(s []byte) *Node             { return &Node{Cls: 0, Tag: 4, Data: s} }
func nCtx(tag int, s []byte) *Node    { return &Node{Cls: 128, Tag: tag, Data: s} }
func nSeq(kids ...*Node) *Node        { return &Node{Cls: 0, Cons: true, Tag: 16, Kids: kids} }
func nSet(kids ...*Node) *Node        { return &Node{Cls: 0, Cons: true, Tag: 17, Kids: kids} }
func nCtxC(tag int, k ...*Node) *Node { return &Node{Cls: 128, Cons: true, Tag: tag, Kids: k} }
func nApp(tag int, k ...*Node) *Node  { return &Node{Cls: 64, Cons: true, Tag: tag, Kids: k} }
func nBool(b bool) *Node {
	if b {
		return &Node{Cls: 0, Tag: 1, Data: []byte{1}}
	}
	return &Node{Cls: 0, Tag: 1, Data: []byte{0}}
}

func encFilter(f *TFilter) *Node {
	switch f.Kind {
	case "and", "or":
		t := 0
		if f.Kind == "or" {
			t = 1
		}
		n := nCtxC(t)
		for _, s := range f.Subs {
			n.Kids = append(n.Kids, encFilter(s))
		}
		return n
	case "not":
		return nCtxC(2, encFilter(f.Subs[0]))
	case "eq":
		return nCtxC(3, nOct(f.A), nOct(f.V))
	case "ge":
		return nCtxC(5, nOct(f.A), nOct(f.V))
	case "le":
		return nCtxC(6, nOct(f.A), nOct(f.V))
	case "approx":
		return nCtxC(8, nOct(f.A), nOct(f.V))
	case "present":
		return nCtx(7, f.A)
	case "sub":
		s := nSeq()
		if f.Init != nil {
			s.Kids = append(s.Kids, nCtx(0, *f.Init))
		}
		for _, a := range f.Anys {
			s.Kids = append(s.Kids, nCtx(1, a))
		}
		if f.Fin != nil {
			s.Kids = append(s.Kids, nCtx(2, *f.Fin))
		}
		return nCtxC(4, nOct(f.A), s)
	default: // ext
		n := nCtxC(9)
		if f.Rule != nil {
			n.Kids = append(n.Kids, nCtx(1, *f.Rule))
		}
		if f.Typ != nil {
			n.Kids = append(n.Kids, nCtx(2, *f.Typ))
		}
		n.Kids = append(n.Kids, nCtx(3, f.V))
		if f.DN {
			n.Kids = append(n.Kids, nCtx(4, []byte{0xff}))
		}
		return n
	}
}

// controls are encoded by gldap's own Encode (that is what a client using the
// exported control types sends); parsed back into a Node
func encControls(cs []TControl) *Node {
	n := nCtxC(0)
	for _, tc := range cs {
		c, err := realControl(tc)
		if err != nil {
			panic(harnessError("control ctor: " + err.Error()))
		}
		k, rest, ok := parseNode(c.Encode().Bytes())
		if !ok || len(rest) != 0 {
			panic(harnessError("cannot parse control encoding"))
		}
		n.Kids = append(n.Kids, k)
	}
	return n
}

func encodeReq(q *TReq) *Node {
	var op *Node
	switch q.Kind {
	case "bind":
		op = nApp(0, nInt(0, 2, 3), nOct(q.DN), nCtx(0, q.PW))
	case "search":
		attrs := nSeq()
		for _, a := range q.Attrs {
			attrs.Kids = append(attrs.Kids, nOct(a))
		}
		op = nApp(3, nOct(q.DN), nInt(0, 10, q.Scope), nInt(0, 10, q.Deref), nInt(0, 2, q.Size), nInt(0, 2, q.Time),
			nBool(q.TypesOnly), encFilter(q.Filter), attrs)
	case "modify":
		chs := nSeq()
		for _, c := range q.Changes {
			vals := nSet()
			for _, v := range c.Vals {
				vals.Kids = append(vals.Kids, nOct(v))
			}
			chs.Kids = append(chs.Kids, nSeq(nInt(0, 10, c.Op), nSeq(nOct(c.Type), vals)))
		}
		op = nApp(6, nOct(q.DN), chs)
	case "add":
		as := nSeq()
		for _, a := range q.AddAttrs {
			vals := nSet()
			for _, v := range a.Vals {
				vals.Kids = append(vals.Kids, nOct(v))
			}
			as.Kids = append(as.Kids, nSeq(nOct(a.Type), vals))
		}
		op = nApp(8, nOct(q.DN), as)
	case "del":
		op = &Node{Cls: 64, Tag: 10, Data: q.DN}
	case "ext":
		op = nApp(23, nCtx(0, q.Name))
		if q.Value != nil {
			op.Kids = append(op.Kids, nCtx(1, *q.Value))
		}
	default:
		op = &Node{Cls: 64, Tag: 2}
	}
	env := nSeq(nInt(0, 2, q.ID), op)
	if len(q.Ctrls) > 0 && q.Kind != "ext" && q.Kind != "unbind" {
		env.Kids = append(env.Kids, encControls(q.Ctrls))
	}
	return env
}

// ---------------------------------------------------------------------------
// parsing the prefix notation

func optBytes(t *Toks) *[]byte {
	s := t.Next()
	if s == "~" {
		return nil
	}
	b := unhx(s)
	if b == nil {
		b = []byte{}
	}
	return &b
}
func hexListT(t *Toks) [][]byte {
	k := t.Int()
	out := make([][]byte, 0, k)
	for i := 0; i < k; i++ {
		out = append(out, t.Hex())
	}
	return out
}
func int64T(t *Toks) int64 {
	v, err := strconv.ParseInt(t.Next(), 10, 64)
	if err != nil {
		panic(harnessError("bad int64"))
	}
	return v
}

func parseFilter(t *Toks) *TFilter {
	k := t.Next()
	f := &TFilter{Kind: k}
	switch k {
	case "and", "or":
		n := t.Int()
		for i := 0; i < n; i++ {
			f.Subs = append(f.Subs, parseFilter(t))
		}
	case "not":
		f.Subs = []*TFilter{parseFilter(t)}
	case "present":
		f.A = t.Hex()
	case "sub":
		f.A = t.Hex()
		f.Init = optBytes(t)
		f.Anys = hexListT(t)
		f.Fin = optBytes(t)
	case "ext":
		f.Rule = optBytes(t)
		f.Typ = optBytes(t)
		f.V = t.Hex()
		f.DN = t.Bool()
	default:
		f.A = t.Hex()
		f.V = t.Hex()
	}
	return f
}

func parseControls(t *Toks) []TControl {
	n := t.Int()
	cs := make([]TControl, 0, n)
	for i := 0; i < n; i++ {
		cs = append(cs, parseControl(t))
	}
	return cs
}

func parseReq(t *Toks) *TReq {
	q := &TReq{Kind: t.Next()}
	q.ID = int64T(t)
	switch q.Kind {
	case "bind":
		q.DN, q.PW = t.Hex(), t.Hex()
		q.Ctrls = parseControls(t)
	case "search":
		q.DN = t.Hex()
		q.Scope, q.Deref, q.Size, q.Time = int64T(t), int64T(t), int64T(t), int64T(t)
		q.TypesOnly = t.Bool()
		q.Filter = parseFilter(t)
		q.Attrs = hexListT(t)
		q.Ctrls = parseControls(t)
	case "modify":
		q.DN = t.Hex()
		n := t.Int()
		for i := 0; i < n; i++ {
			c := TChange{Op: int64T(t)}
			c.Type = t.Hex()
			c.Vals = hexListT(t)
			q.Changes = append(q.Changes, c)
		}
		q.Ctrls = parseControls(t)
	case "add":
		q.DN = t.Hex()
		n := t.Int()
		for i := 0; i < n; i++ {
			a := TAttr{Type: t.Hex()}
			a.Vals = hexListT(t)
			q.AddAttrs = append(q.AddAttrs, a)
		}
		q.Ctrls = parseControls(t)
	case "del":
		q.DN = t.Hex()
		q.Ctrls = parseControls(t)
	case "ext":
		q.Name = t.Hex()
		q.Value = optBytes(t)
	}
	return q
}

// encode: the harness-side encoder's bytes (compared with the model's wire)
func runEncode(t *Toks) string {
	return hx(encodeReq(parseReq(t)).encode())
}

// ---------------------------------------------------------------------------
// generators

// searches whose filter is an extensible match with dnAttributes (known finding K2)
func genC01DN(g *Gen) {
	for i := 0; i < g.n; i++ {
		q := g.request("search")
		typ := g.attrDesc()
		rule := []byte("2.4.6.8")
		f := &TFilter{Kind: "ext", Typ: &typ, V: g.str(), DN: true}
		if g.rng.Bool() {
			f.Rule = &rule
		}
		if i%2 == 0 {
			q.Filter = f
		} else {
			q.Filter = &TFilter{Kind: "and", Subs: []*TFilter{g.filter(1), f}}
		}
		g.emit("req", q.String())
	}
}

// frames that must never reach a handler: unsupported protocolOp tags and bind versions != 3
func genC01Neg(g *Gen) {
	supported := map[int]bool{0: true, 2: true, 3: true, 6: true, 8: true, 10: true, 23: true}
	body := func() []*Node {
		return []*Node{nOct([]byte("cn=a")), nSeq(nOct([]byte("x")), nOct([]byte("y")))}
	}
	ids := []int64{0, 1, 255, math.MaxInt32}
	for tag := 0; tag <= 30; tag++ {
		if supported[tag] {
			continue
		}
		for _, id := range ids {
			g.emit("decode", hx(nSeq(nInt(0, 2, id), nApp(tag, body()...)).encode()))
			g.emit("decode", hx(nSeq(nInt(0, 2, id), &Node{Cls: 64, Tag: tag, Data: []byte("cn=a")}).encode()))
			// shaped like the neighbouring supported request
			cmp := nApp(tag, nOct([]byte("cn=a")), nSeq(nOct([]byte("cn")), nOct([]byte("v"))))
			g.emit("decode", hx(nSeq(nInt(0, 2, id), cmp, encControls([]TControl{{Kind: "msnotif"}})).encode()))
		}
	}
	// high-tag-number protocolOps
	for _, tag := range []int{31, 32, 100, 127} {
		g.emit("decode", hx(nSeq(nInt(0, 2, 1), &Node{Cls: 64, Cons: true, Tag: tag, Kids: body()}).encode()))
	}
	// tag numbers that are a supported one modulo 2^7, 2^8, 2^16, 2^32, in the shape of that request
	shaped := map[int]func() []*Node{
		0:  func() []*Node { return []*Node{nInt(0, 2, 3), nOct([]byte("cn=a")), nCtx(0, []byte("pw"))} },
		2:  func() []*Node { return nil },
		3:  func() []*Node { return body() },
		6:  func() []*Node { return body() },
		8:  func() []*Node { return body() },
		10: func() []*Node { return nil },
		23: func() []*Node { return []*Node{nCtx(0, []byte("1.3.6.1.4.1.1466.20037"))} },
	}
	for tag, kids := range shaped {
		for _, off := range []int{128, 256, 512, 1 << 14, 1 << 16, 1 << 28, 1 << 32} {
			n := &Node{Cls: 64, Cons: true, Tag: off + tag, Kids: kids()}
			if tag == 2 || tag == 10 {
				n = &Node{Cls: 64, Tag: off + tag, Data: []byte("cn=a")}
				if tag == 2 {
					n.Data = nil
				}
			}
			g.emit("decode", hx(nSeq(nInt(0, 2, 1), n).encode()))
		}
	}
	// other classes carrying a supported tag number
	for _, cls := range []int{0, 128, 192} {
		for tag := range supported {
			g.emit("decode", hx(nSeq(nInt(0, 2, 1), &Node{Cls: cls, Cons: true, Tag: tag, Kids: body()}).encode()))
		}
	}
	// bind versions
	vers := []int64{0, 1, 2, 4, 127, 128, 255, 256, math.MaxInt32, math.MaxInt32 + 1, -1, -3, math.MaxInt64, math.MinInt64}
	for _, v := range vers {
		for _, id := range ids {
			bind := nApp(0, nInt(0, 2, v), nOct([]byte("cn=a")), nCtx(0, []byte("pw")))
			g.emit("decode", hx(nSeq(nInt(0, 2, id), bind).encode()))
			g.emit("decode", hx(nSeq(nInt(0, 2, id), bind, encControls([]TControl{{Kind: "paging", Size: 3}})).encode()))
		}
	}
	// version encoded with an over-long INTEGER (ParseInt64 gives 0), and as an ENUMERATED/BOOLEAN
	g.emit("decode", hx(nSeq(nInt(0, 2, 1), nApp(0, &Node{Cls: 0, Tag: 2, Data: []byte{0, 0, 0, 0, 0, 0, 0, 0, 3}}, nOct(nil), nCtx(0, nil))).encode()))
	g.emit("decode", hx(nSeq(nInt(0, 2, 1), nApp(0, nInt(0, 10, 3), nOct(nil), nCtx(0, nil))).encode()))
	g.emit("decode", hx(nSeq(nInt(0, 2, 1), nApp(0, nBool(true), nOct(nil), nCtx(0, nil))).encode()))
}

// several frames back to back on one connection; sometimes one is malformed
func genC02Stream(g *Gen) {
	r := g.rng
	for i := 0; i < g.n; i++ {
		var buf []byte
		k := 1 + r.Intn(4)
		for j := 0; j < k; j++ {
			kind := reqKinds[r.Intn(len(reqKinds))]
			if kind == "unbind" && r.Chance(70) {
				kind = "del"
			}
			q := g.request(kind)
			if q.Filter != nil {
				q.Filter = &TFilter{Kind: "present", A: []byte("cn")}
			}
			root := encodeReq(q)
			if r.Chance(15) {
				var paths []path
				allPaths(root, nil, &paths)
				p := paths[r.Intn(len(paths))]
				ms := mutationsAt(root, p)
				c := root.clone()
				func() {
					defer func() { _ = recover() }()
					ms[r.Intn(len(ms))].apply(c)
				}()
				root = c
			}
			buf = append(buf, root.encode()...)
		}
		if r.Chance(20) {
			buf = append(buf, r.Bytes(1+r.Intn(5))...)
		}
		g.emit("stream", hx(buf))
	}
}

// well-formed requests nested far deeper than ordinary ones (filters of and / or / not chains,
// and constructed controls values): depth is the client's choice, and everything that walks the
// tree (decoding, the packet dumps of the debug logger) has to take it
func genC02Deep(g *Gen) {
	depths := []int{8, 16, 30, 31, 32, 33, 34, 40, 64, 127, 128, 200, 1000}
	for _, d := range depths {
		for _, kind := range []string{"and", "or", "not", "mixed"} {
			f := &TFilter{Kind: "present", A: []byte("cn")}
			for i := 0; i < d; i++ {
				k := kind
				if kind == "mixed" {
					k = []string{"and", "or", "not"}[i%3]
				}
				f = &TFilter{Kind: k, Subs: []*TFilter{f}}
			}
			q := &TReq{Kind: "search", ID: int64(d), DN: []byte("dc=x"), Scope: 2, Filter: f}
			g.emit("decode", hx(encodeReq(q).encode()))
		}
		// nesting outside the filter: a chain of constructed nodes where the attribute list is
		n := nOct([]byte("cn"))
		for i := 0; i < d; i++ {
			n = nSeq(n)
		}
		root := encodeReq(&TReq{Kind: "search", ID: int64(d), DN: []byte("dc=x"), Scope: 2, Filter: &TFilter{Kind: "present", A: []byte("cn")}})
		op := root.Kids[1]
		op.Kids[len(op.Kids)-1] = n
		g.emit("decode", hx(root.encode()))
	}
}

// what a connection can deliver before it ends: every 1-byte stream, 2-byte
// streams (all of them in the thorough tier), 3-byte streams behind the bytes a
// reader might peek at, and every proper prefix of well-formed frames
func genC02Short(g *Gen) {
	for b := 0; b < 256; b++ {
		g.emit("stream", hx([]byte{byte(b)}))
	}
	seconds := []byte{0x00, 0x01, 0x02, 0x03, 0x16, 0x30, 0x7f, 0x80, 0x81, 0x82, 0x84, 0x88, 0xff}
	for a := 0; a < 256; a++ {
		if g.tier == "thorough" {
			for b := 0; b < 256; b++ {
				g.emit("stream", hx([]byte{byte(a), byte(b)}))
			}
			continue
		}
		for _, b := range seconds {
			g.emit("stream", hx([]byte{byte(a), b}))
		}
	}
	for _, a := range []byte{0x16, 0x30, 0x80, 0x15, 0x17} {
		for _, b := range seconds {
			for _, c := range seconds {
				g.emit("stream", hx([]byte{a, b, c}))
			}
		}
	}
	// a frame gldap does not serve (every application tag, primitive and constructed) followed by
	// a frame that is too short to be a message: whatever the first one leaves behind, the second
	// is rejected like on a fresh connection
	shorts := [][]byte{{0x30, 0x00}, {0x30, 0x03, 0x02, 0x01, 0x03}, {0x04, 0x02, 0x68, 0x69}, {0x05, 0x00}, {0x60, 0x00}, {0x30, 0x05, 0x02, 0x01, 0x03, 0x50, 0x00}}
	lead := encodeReq(&TReq{Kind: "del", ID: 9, DN: []byte("cn=a")}).encode()
	for tag := 0; tag <= 30; tag++ {
		for _, cons := range []bool{false, true} {
			var op *Node
			if cons {
				op = nApp(tag, nOct([]byte("cn=a")))
			} else {
				op = &Node{Cls: 64, Tag: tag, Data: []byte{1}}
			}
			first := nSeq(nInt(0, 2, 2), op).encode()
			for si, sh := range shorts {
				if g.tier != "thorough" && (tag+si)%3 != 0 && tag != 16 {
					continue
				}
				g.emit("stream", hx(append(append([]byte{}, first...), sh...)))
				g.emit("stream", hx(append(append(append([]byte{}, lead...), first...), sh...)))
			}
		}
	}
	n := 12
	if g.tier == "thorough" {
		n = 200
	}
	for i := 0; i < n; i++ {
		q := g.request(reqKinds[i%len(reqKinds)])
		if q.Filter != nil {
			q.Filter = &TFilter{Kind: "present", A: []byte("cn")}
		}
		frame := encodeReq(q).encode()
		var lead2 []byte
		if i%3 == 1 {
			lead2 = lead
		}
		// every proper prefix of a short frame; of a long one the first 64, the last 16 and a sample
		// in between (all prefixes of a 60 KB frame would be gigabytes of cases)
		cut := func(k int) { g.emit("stream", hx(append(append([]byte{}, lead2...), frame[:k]...))) }
		if len(frame) <= 400 {
			for k := 1; k < len(frame); k++ {
				cut(k)
			}
		} else if len(frame) <= 20000 {
			for k := 1; k <= 64; k++ {
				cut(k)
			}
			for j := 0; j < 40; j++ {
				cut(65 + g.rng.Intn(len(frame)-82))
			}
			for k := len(frame) - 16; k < len(frame); k++ {
				cut(k)
			}
		} else {
			for _, k := range []int{1, 2, 3, 4, 5, 8, 16, 64, len(frame) / 2, len(frame) - 2, len(frame) - 1} {
				cut(k)
			}
		}
	}
}

var _ = gldap.ResultSuccess
