package main

import (
	"bufio"
	"encoding/hex"
	"fmt"
	"strconv"
	"strings"
)

// RNG is splitmix64; every random choice of a run derives from one state.
type RNG struct{ s uint64 }

func NewRNG(seed uint64) *RNG { return &RNG{s: seed*0x9E3779B97F4A7C15 + 0x1234567} }
func (r *RNG) Next() uint64 {
	r.s += 0x9E3779B97F4A7C15
	z := r.s
	z = (z ^ (z >> 30)) * 0xBF58476D1CE4E5B9
	z = (z ^ (z >> 27)) * 0x94D049BB133111EB
	return z ^ (z >> 31)
}
func (r *RNG) Intn(n int) int {
	if n <= 0 {
		return 0
	}
	return int(r.Next() % uint64(n))
}
func (r *RNG) Bool() bool        { return r.Next()&1 == 1 }
func (r *RNG) Chance(p int) bool { return r.Intn(100) < p }
func (r *RNG) Pick(xs []string) string {
	return xs[r.Intn(len(xs))]
}
func (r *RNG) Bytes(n int) []byte {
	b := make([]byte, n)
	for i := range b {
		b[i] = byte(r.Next())
	}
	return b
}

// Gen carries generator state.
type Gen struct {
	rng  *RNG
	out  *bufio.Writer
	tier string
	n    int
	id   int
}

func (g *Gen) emit(kind string, args ...string) {
	g.id++
	fmt.Fprintf(g.out, "%s %d %s\n", kind, g.id, strings.Join(args, " "))
}

func hx(b []byte) string {
	if len(b) == 0 {
		return "-"
	}
	return hex.EncodeToString(b)
}
func hxs(s string) string { return hx([]byte(s)) }
func unhx(s string) []byte {
	if s == "-" {
		return nil
	}
	b, err := hex.DecodeString(s)
	if err != nil {
		panic(harnessError("bad hex " + s))
	}
	return b
}
func listStr(xs []string) string {
	return strings.TrimSpace(strconv.Itoa(len(xs)) + " " + strings.Join(xs, " "))
}
func hexList(xs []string) string {
	hs := make([]string, len(xs))
	for i, x := range xs {
		hs[i] = hxs(x)
	}
	return listStr(hs)
}
func hexListB(xs [][]byte) string {
	hs := make([]string, len(xs))
	for i, x := range xs {
		hs[i] = hx(x)
	}
	return listStr(hs)
}

// Toks is a consumable token stream (prefix notation, same as the driver).
type Toks struct{ rest []string }

func (t *Toks) Next() string {
	if len(t.rest) == 0 {
		panic(harnessError("missing token"))
	}
	x := t.rest[0]
	t.rest = t.rest[1:]
	return x
}
func (t *Toks) unread(x string) { t.rest = append([]string{x}, t.rest...) }

func (t *Toks) Int() int {
	v, err := strconv.Atoi(t.Next())
	if err != nil {
		panic(harnessError("bad int"))
	}
	return v
}
func (t *Toks) Hex() []byte { return unhx(t.Next()) }
func (t *Toks) Str() string { return string(unhx(t.Next())) }
func (t *Toks) StrList() []string {
	k := t.Int()
	xs := make([]string, 0, k)
	for i := 0; i < k; i++ {
		xs = append(xs, t.Str())
	}
	return xs
}
func (t *Toks) Bool() bool { x := t.Next(); return x == "1" || x == "true" }

// size-biased string generator: empty, short, boundary lengths
func (g *Gen) str() []byte {
	r := g.rng
	switch r.Intn(20) {
	case 0:
		return nil
	case 1:
		return r.Bytes(127)
	case 2:
		return r.Bytes(128)
	case 3:
		return r.Bytes(255 + r.Intn(3))
	case 4:
		if g.tier == "thorough" && r.Chance(30) {
			return r.Bytes(65535 + r.Intn(3))
		}
		return r.Bytes(300 + r.Intn(50))
	default:
		n := 1 + r.Intn(12)
		b := make([]byte, n)
		if r.Chance(70) {
			const al = "abcdefghijklmnopqrstuvwxyzABCDEFGHIJKLMNOPQRSTUVWXYZ0123456789=,. -_@"
			for i := range b {
				b[i] = al[r.Intn(len(al))]
			}
			return b
		}
		return r.Bytes(n)
	}
}
