package main

// In-process request-path runners and the C01 / C02 / C14 generators.

import (
	"bytes"
	"fmt"
	"io"
	"math"
	"strconv"

	ber "github.com/go-asn1-ber/asn1-ber"
	"github.com/jimlambrt/gldap"
)

func init() {
	generators["c01"] = genC01
	generators["c02canon"] = genC02Canon
	generators["c14"] = genC14
	generators["c14req"] = genC14Req
	runners["decode"] = runDecode
	runners["stream"] = runStream
	runners["ctldecode"] = runCtlDecode
	runners["ctl"] = runCtl
	runners["behera"] = runBehera
	commands["mutate"] = cmdMutate
}

// decode: the real (*conn).readRequest on a reader holding exactly these bytes
func runDecode(t *Toks) string {
	data := t.Hex()
	one := func(c *gldap.VerifConn) string {
		r, err := c.ReadRequest(1)
		if err != nil {
			return "ERR"
		}
		return "OK " + canonRequest(r)
	}
	plain := one(gldap.VerifNewConn(bytes.NewReader(data), io.Discard, nil, 1))
	// the same frame with debug logging on (packet dumps and whatever else only runs then):
	// a panic there is a panic of request reading, and the result must not depend on the logger
	dbg := func() (out string) {
		defer func() {
			if p := recover(); p != nil {
				out = "PANIC"
			}
		}()
		return one(gldap.VerifNewConnDebug(bytes.NewReader(data), io.Discard, nil, 1))
	}()
	if dbg == "PANIC" {
		return "PANIC"
	}
	if dbg != plain {
		return "LOGGER-DEPENDENT " + plain + " / " + dbg
	}
	return plain
}

// stream: frame after frame as serveRequests reads them, until an error, an
// Unbind or the end of the bytes
func runStream(t *Toks) string {
	data := t.Hex()
	rd := bytes.NewReader(data)
	c := gldap.VerifNewConn(rd, io.Discard, nil, 1)
	var parts []string
	for id := 1; ; id++ {
		r, err := func() (r *gldap.Request, err error) {
			defer func() {
				if p := recover(); p != nil {
					err = fmt.Errorf("PANIC")
				}
			}()
			return c.ReadRequest(id)
		}()
		if err != nil {
			if err.Error() == "PANIC" {
				parts = append(parts, "[PANIC]")
				break
			}
			// a clean end of stream (no byte of a further frame) is not a frame
			if id > 1 && rd.Len() == 0 && isCleanEOF(err) {
				break
			}
			parts = append(parts, "[ERR]")
			break
		}
		parts = append(parts, "[OK "+canonRequest(r)+"]")
		if gldap.VerifIsUnbind(r) {
			break
		}
	}
	return listStr(parts)
}

func isCleanEOF(err error) bool {
	for e := err; e != nil; {
		if e == io.EOF {
			return true
		}
		u, ok := e.(interface{ Unwrap() error })
		if !ok {
			return false
		}
		e = u.Unwrap()
	}
	return false
}

func runCtlDecode(t *Toks) string {
	data := t.Hex()
	p, err := ber.DecodePacketErr(data)
	if err != nil {
		return "ERR"
	}
	c, err := gldap.VerifDecodeControl(p)
	if err != nil {
		return "ERR"
	}
	return "OK " + canonControl(c)
}

// ---------------------------------------------------------------------------
// typed controls -> real gldap control values

func (g *Gen) control() TControl {
	r := g.rng
	switch r.Intn(12) {
	case 0, 1:
		sizes := []uint32{0, 1, 127, 128, 255, 256, 65535, 65536, math.MaxInt32, math.MaxInt32 + 1, math.MaxUint32}
		c := TControl{Kind: "paging", Size: sizes[r.Intn(len(sizes))]}
		if r.Chance(30) {
			c.Size = uint32(r.Next())
		}
		if r.Chance(70) {
			c.Cookie = g.str()
		}
		return c
	case 2, 3:
		c := TControl{Kind: "behera", E: -1, G: -1, C: -1}
		vals := []int64{0, 1, 127, 128, 255, 256, 65535, math.MaxInt32, math.MaxInt32 + 1, math.MaxInt64}
		switch r.Intn(4) {
		case 0:
			c.E = vals[r.Intn(len(vals))]
		case 1:
			c.G = vals[r.Intn(len(vals))]
		case 2:
			c.C = int64(r.Intn(9))
		}
		return c
	case 4:
		return TControl{Kind: "vchuchange"}
	case 5:
		vals := []int64{0, 1, -1, 86400, math.MaxInt64, math.MinInt64, -5}
		return TControl{Kind: "vchuwarn", E: vals[r.Intn(len(vals))]}
	case 6:
		return TControl{Kind: "managedsait", Crit: r.Bool()}
	case 7:
		return TControl{Kind: r.Pick([]string{"msnotif", "msshowdel", "mslinkttl"})}
	default:
		oid := "1.2.3." + strconv.Itoa(r.Intn(1000))
		if r.Chance(20) {
			oid = string(g.str())
			if oid == "" {
				oid = "x"
			}
		}
		if reservedOID(oid) {
			oid += ".9"
		}
		c := TControl{Kind: "str", OID: oid, Crit: r.Bool()}
		if r.Chance(60) {
			c.Val = string(g.str())
		}
		return c
	}
}

func reservedOID(o string) bool {
	switch o {
	case gldap.ControlTypePaging, gldap.ControlTypeBeheraPasswordPolicy, gldap.ControlTypeVChuPasswordMustChange,
		gldap.ControlTypeVChuPasswordWarning, gldap.ControlTypeManageDsaIT, gldap.ControlTypeMicrosoftNotification,
		gldap.ControlTypeMicrosoftShowDeleted, gldap.ControlTypeMicrosoftServerLinkTTL:
		return true
	}
	return false
}

func (g *Gen) controls() []TControl {
	r := g.rng
	n := 0
	switch r.Intn(6) {
	case 0, 1, 2:
		n = 0
	case 3:
		n = 1
	case 4:
		n = 2
	default:
		n = 3 + r.Intn(4)
	}
	cs := make([]TControl, n)
	for i := range cs {
		cs[i] = g.control()
	}
	return cs
}

// realControl builds the gldap control value through the exported API
func realControl(c TControl) (gldap.Control, error) {
	switch c.Kind {
	case "paging":
		p, err := gldap.NewControlPaging(c.Size)
		if err != nil {
			return nil, err
		}
		p.SetCookie(c.Cookie)
		return p, nil
	case "behera":
		var opts []gldap.Option
		if c.E != -1 {
			opts = append(opts, gldap.WithSecondsBeforeExpiration(uint(c.E)))
		}
		if c.G != -1 {
			opts = append(opts, gldap.WithGraceAuthNsRemaining(uint(c.G)))
		}
		if c.C != -1 {
			opts = append(opts, gldap.WithErrorCode(uint(c.C)))
		}
		return gldap.NewControlBeheraPasswordPolicy(opts...)
	case "vchuchange":
		return &gldap.ControlVChuPasswordMustChange{MustChange: true}, nil
	case "vchuwarn":
		return &gldap.ControlVChuPasswordWarning{Expire: c.E}, nil
	case "managedsait":
		return gldap.NewControlManageDsaIT(gldap.WithCriticality(c.Crit))
	case "msnotif":
		return gldap.NewControlMicrosoftNotification()
	case "msshowdel":
		return gldap.NewControlMicrosoftShowDeleted()
	case "mslinkttl":
		return gldap.NewControlMicrosoftServerLinkTTL()
	default:
		return gldap.NewControlString(c.OID, gldap.WithCriticality(c.Crit), gldap.WithControlValue(c.Val))
	}
}

func parseControl(t *Toks) TControl {
	k := t.Next()
	c := TControl{Kind: k, E: -1, G: -1, C: -1}
	switch k {
	case "paging":
		v, _ := strconv.ParseUint(t.Next(), 10, 64)
		c.Size = uint32(v)
		c.Cookie = t.Hex()
	case "behera":
		c.E, _ = strconv.ParseInt(t.Next(), 10, 64)
		c.G, _ = strconv.ParseInt(t.Next(), 10, 64)
		c.C, _ = strconv.ParseInt(t.Next(), 10, 64)
	case "vchuwarn":
		c.E, _ = strconv.ParseInt(t.Next(), 10, 64)
	case "managedsait":
		c.Crit = t.Bool()
	case "str":
		c.OID = t.Str()
		c.Crit = t.Bool()
		c.Val = t.Str()
	}
	return c
}

// ctl: Encode() of the real control -> bytes, then the real decodeControl on
// the re-read bytes (request direction)
func runCtl(t *Toks) string {
	tc := parseControl(t)
	c, err := realControl(tc)
	if err != nil {
		return "CTORERR"
	}
	enc := c.Encode().Bytes()
	p, err := ber.DecodePacketErr(enc)
	if err != nil {
		return hx(enc) + " | REREADERR"
	}
	d, err := gldap.VerifDecodeControl(p)
	if err != nil {
		return hx(enc) + " | ERR"
	}
	return hx(enc) + " | OK " + canonControl(d)
}

func optUint(t *Toks) (uint, bool) {
	s := t.Next()
	if s == "~" {
		return 0, false
	}
	v, err := strconv.ParseUint(s, 10, 64)
	if err != nil {
		panic(harnessError("bad uint"))
	}
	return uint(v), true
}

// behera g e c: the constructor with the three options (uint arguments)
func runBehera(t *Toks) string {
	var opts []gldap.Option
	if v, ok := optUint(t); ok {
		opts = append(opts, gldap.WithGraceAuthNsRemaining(v))
	}
	if v, ok := optUint(t); ok {
		opts = append(opts, gldap.WithSecondsBeforeExpiration(v))
	}
	if v, ok := optUint(t); ok {
		opts = append(opts, gldap.WithErrorCode(v))
	}
	c, err := gldap.NewControlBeheraPasswordPolicy(opts...)
	if err != nil {
		return "ERR"
	}
	return "OK " + canonControl(c)
}

// ---------------------------------------------------------------------------
// C01 generator: typed requests

func (g *Gen) attrDesc() []byte {
	r := g.rng
	if r.Chance(85) {
		names := []string{"cn", "sn", "objectClass", "mail", "uid", "member", "memberOf", "userPassword", "o", "description;lang-en"}
		return []byte(r.Pick(names))
	}
	return g.str()
}

func (g *Gen) filter(depth int) *TFilter {
	r := g.rng
	k := r.Intn(12)
	if depth <= 0 && k < 3 {
		k = 3 + r.Intn(9)
	}
	bp := func(b []byte) *[]byte { return &b }
	switch k {
	case 0, 1:
		kind := "and"
		if k == 1 {
			kind = "or"
		}
		n := r.Intn(4)
		f := &TFilter{Kind: kind}
		for i := 0; i < n; i++ {
			f.Subs = append(f.Subs, g.filter(depth-1))
		}
		return f
	case 2:
		return &TFilter{Kind: "not", Subs: []*TFilter{g.filter(depth - 1)}}
	case 3, 4:
		return &TFilter{Kind: "eq", A: g.attrDesc(), V: g.str()}
	case 5:
		return &TFilter{Kind: "ge", A: g.attrDesc(), V: g.str()}
	case 6:
		return &TFilter{Kind: "le", A: g.attrDesc(), V: g.str()}
	case 7:
		return &TFilter{Kind: "approx", A: g.attrDesc(), V: g.str()}
	case 8:
		return &TFilter{Kind: "present", A: g.attrDesc()}
	case 9, 10:
		f := &TFilter{Kind: "sub", A: g.attrDesc()}
		if r.Bool() {
			f.Init = bp(g.str())
		}
		for i := r.Intn(3); i > 0; i-- {
			f.Anys = append(f.Anys, g.str())
		}
		if r.Bool() {
			f.Fin = bp(g.str())
		}
		if f.Init == nil && f.Fin == nil && len(f.Anys) == 0 {
			f.Anys = append(f.Anys, g.str())
		}
		return f
	default:
		f := &TFilter{Kind: "ext", V: g.str()}
		if r.Bool() {
			f.Rule = bp([]byte("2.4.6." + strconv.Itoa(r.Intn(10))))
		}
		if r.Bool() || f.Rule == nil {
			f.Typ = bp(g.attrDesc())
		}
		// dnAttributes: see known finding K2; generated separately
		return f
	}
}

func (g *Gen) msgID() int64 {
	r := g.rng
	ids := []int64{0, 1, 2, 127, 128, 255, 256, 32767, 32768, 65535, 65536, math.MaxInt32 - 1, math.MaxInt32}
	if r.Chance(60) {
		return ids[r.Intn(len(ids))]
	}
	return int64(r.Next() % (1 << 31))
}

func (g *Gen) int64val() int64 {
	r := g.rng
	vals := []int64{0, 1, 2, 3, 127, 128, 255, 256, 32767, 32768, math.MaxInt32, math.MaxInt32 + 1, math.MaxInt64, -1, -128, -129, math.MinInt64}
	return vals[r.Intn(len(vals))]
}

func (g *Gen) request(kind string) *TReq {
	r := g.rng
	q := &TReq{Kind: kind, ID: g.msgID()}
	switch kind {
	case "bind":
		q.DN, q.PW = g.str(), g.str()
		q.Ctrls = g.controls()
	case "search":
		q.DN = g.str()
		if r.Chance(80) {
			q.Scope, q.Deref = int64(r.Intn(3)), int64(r.Intn(4))
			q.Size, q.Time = int64(r.Intn(1000)), int64(r.Intn(1000))
			if r.Chance(30) {
				q.Size, q.Time = int64(r.Next()%(1<<31)), int64(r.Next()%(1<<31))
			}
		} else {
			q.Scope, q.Deref, q.Size, q.Time = g.int64val(), g.int64val(), g.int64val(), g.int64val()
		}
		q.TypesOnly = r.Bool()
		q.Filter = g.filter(3)
		for i := r.Intn(4); i > 0; i-- {
			q.Attrs = append(q.Attrs, g.attrDesc())
		}
		q.Ctrls = g.controls()
	case "modify":
		q.DN = g.str()
		for i := r.Intn(4); i > 0; i-- {
			c := TChange{Op: int64(r.Intn(4)), Type: g.attrDesc()}
			if r.Chance(10) {
				c.Op = g.int64val()
			}
			for j := r.Intn(4); j > 0; j-- {
				c.Vals = append(c.Vals, g.str())
			}
			q.Changes = append(q.Changes, c)
		}
		q.Ctrls = g.controls()
	case "add":
		q.DN = g.str()
		for i := r.Intn(4); i > 0; i-- {
			a := TAttr{Type: g.attrDesc()}
			for j := r.Intn(4); j > 0; j-- {
				a.Vals = append(a.Vals, g.str())
			}
			q.AddAttrs = append(q.AddAttrs, a)
		}
		q.Ctrls = g.controls()
	case "del":
		q.DN = g.str()
		q.Ctrls = g.controls()
	case "ext":
		names := []string{"1.3.6.1.4.1.1466.20037", "1.3.6.1.4.1.4203.1.11.3", "1.3.6.1.4.1.4203.1.11.1", "1.3.6.1.1.8", "9.9.9"}
		q.Name = []byte(r.Pick(names))
		if r.Chance(20) {
			q.Name = g.str()
		}
		if r.Chance(30) {
			v := g.str()
			q.Value = &v
		}
	}
	return q
}

var reqKinds = []string{"bind", "search", "modify", "add", "del", "ext", "unbind"}

func genC01(g *Gen) {
	for i := 0; i < g.n; i++ {
		q := g.request(reqKinds[i%len(reqKinds)])
		g.emit("req", q.String())
	}
}

// canonical requests for the C02 mutation sweep: each operation x each control kind
func genC02Canon(g *Gen) {
	one := []byte("v")
	ctrls := [][]TControl{
		nil,
		{{Kind: "paging", Size: 5, Cookie: []byte("ck")}},
		{{Kind: "behera", E: 10, G: -1, C: -1}},
		{{Kind: "behera", E: -1, G: 3, C: -1}},
		{{Kind: "behera", E: -1, G: -1, C: 2}},
		{{Kind: "vchuchange"}},
		{{Kind: "vchuwarn", E: 42}},
		{{Kind: "managedsait", Crit: true}},
		{{Kind: "msnotif"}},
		{{Kind: "str", OID: "1.2.3", Crit: true, Val: "x"}},
		{{Kind: "str", OID: "1.2.3", Crit: false, Val: ""}, {Kind: "paging", Size: 1}},
	}
	for _, cs := range ctrls {
		init := []byte("a")
		reqs := []*TReq{
			{Kind: "bind", ID: 1, DN: []byte("cn=a"), PW: []byte("pw"), Ctrls: cs},
			{Kind: "search", ID: 2, DN: []byte("dc=x"), Scope: 2, Deref: 0, Size: 10, Time: 20, TypesOnly: true,
				Filter: &TFilter{Kind: "and", Subs: []*TFilter{{Kind: "eq", A: []byte("cn"), V: one},
					{Kind: "sub", A: []byte("sn"), Init: &init, Anys: [][]byte{one}},
					{Kind: "not", Subs: []*TFilter{{Kind: "present", A: []byte("o")}}},
					{Kind: "ext", Typ: &init, V: one}}},
				Attrs: [][]byte{[]byte("cn")}, Ctrls: cs},
			{Kind: "modify", ID: 3, DN: []byte("cn=a"), Changes: []TChange{{Op: 0, Type: []byte("mail"), Vals: [][]byte{one, one}}}, Ctrls: cs},
			{Kind: "add", ID: 4, DN: []byte("cn=a"), AddAttrs: []TAttr{{Type: []byte("cn"), Vals: [][]byte{one}}}, Ctrls: cs},
			{Kind: "del", ID: 5, DN: []byte("cn=a"), Ctrls: cs},
		}
		if cs == nil {
			reqs = append(reqs, &TReq{Kind: "ext", ID: 6, Name: []byte("1.3.6.1.4.1.1466.20037")}, &TReq{Kind: "unbind", ID: 7})
		}
		for _, q := range reqs {
			g.emit("req", q.String())
		}
	}
}

// requests of every control-carrying operation with two or more controls in
// every order: a control that leaves out its criticality or its value right
// behind one that carries them (the request direction of "any number and order
// of controls on one message")
func genC14Req(g *Gen) {
	r := g.rng
	one := []byte("v")
	heads := []TControl{
		{Kind: "managedsait", Crit: true},
		{Kind: "str", OID: "1.2.3.4", Crit: true, Val: "v"},
		{Kind: "str", OID: "1.2.3.4", Crit: false, Val: "secret-value"},
		{Kind: "str", OID: "1.2.3.4", Crit: true, Val: ""},
		{Kind: "paging", Size: 7, Cookie: []byte("ck")},
		{Kind: "behera", E: -1, G: 3, C: -1},
		{Kind: "vchuwarn", E: 42},
	}
	tails := []TControl{
		{Kind: "str", OID: "1.2.3.5"},
		{Kind: "managedsait"},
		{Kind: "msnotif"},
		{Kind: "vchuchange"},
		{Kind: "str", OID: "1.2.3.6", Val: "w"},
		{Kind: "str", OID: "1.2.3.7", Crit: true},
	}
	mk := func(kind string, id int64, cs []TControl) *TReq {
		switch kind {
		case "bind":
			return &TReq{Kind: "bind", ID: id, DN: []byte("cn=a"), PW: []byte("pw"), Ctrls: cs}
		case "search":
			// the size limit of the search and the page size of a paging control are unrelated
			// fields: every relation between them (0, below, equal, above)
			return &TReq{Kind: "search", ID: id, DN: []byte("dc=x"), Scope: 2, Size: []int64{0, 1, 6, 7, 8, 2147483647}[int(id)%6],
				Filter: &TFilter{Kind: "present", A: []byte("cn")}, Ctrls: cs}
		case "modify":
			return &TReq{Kind: "modify", ID: id, DN: []byte("cn=a"), Changes: []TChange{{Op: 2, Type: []byte("mail"), Vals: [][]byte{one}}}, Ctrls: cs}
		case "add":
			return &TReq{Kind: "add", ID: id, DN: []byte("cn=a"), AddAttrs: []TAttr{{Type: []byte("cn"), Vals: [][]byte{one}}}, Ctrls: cs}
		}
		return &TReq{Kind: "del", ID: id, DN: []byte("cn=a"), Ctrls: cs}
	}
	kinds := []string{"bind", "search", "modify", "add", "del"}
	id := int64(1)
	for _, k := range kinds {
		for _, h := range heads {
			for _, t := range tails {
				g.emit("req", mk(k, id, []TControl{h, t}).String())
				g.emit("req", mk(k, id+1, []TControl{t, h}).String())
				g.emit("req", mk(k, id+2, []TControl{h, t, tails[(int(id)+1)%len(tails)]}).String())
				id += 3
			}
		}
	}
	for i := 0; i < g.n; i++ {
		n := 2 + r.Intn(5)
		cs := make([]TControl, n)
		for j := range cs {
			switch r.Intn(3) {
			case 0:
				cs[j] = heads[r.Intn(len(heads))]
			case 1:
				cs[j] = tails[r.Intn(len(tails))]
			default:
				cs[j] = g.control()
			}
		}
		g.emit("req", mk(kinds[r.Intn(len(kinds))], id, cs).String())
		id++
	}
}

func genC14(g *Gen) {
	r := g.rng
	for i := 0; i < g.n; i++ {
		g.emit("ctl", g.control().String())
	}
	// Behera constructor: every combination of set/unset options over boundary values
	vals := []string{"~", "0", "1", "8", "9", "255", "256", "2147483647", "9223372036854775807",
		"9223372036854775808", "18446744073709551614", "18446744073709551615"}
	for _, gr := range vals {
		for _, ex := range vals {
			for _, ec := range vals {
				if g.tier != "thorough" && r.Intn(6) != 0 && !(gr == "~" && ex == "~") {
					continue
				}
				g.emit("behera", gr, ex, ec)
			}
		}
	}
}
