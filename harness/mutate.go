package main

// vh mutate <seed> <tier>: reads "<anything> <id> <hex>" lines holding canonical,
// well-formed LDAP frames and writes every single-point shape/type mutation of
// each (and double-point mutations: exhaustive inside the controls subtree,
// sampled elsewhere) as `decode` cases.  DESIGN 5.2 malformed stream.

import (
	"bufio"
	"fmt"
	"os"
	"strconv"
	"strings"
)

type Node struct {
	Cls    int // 0,64,128,192
	Cons   bool
	Tag    int
	Data   []byte // primitive content
	Kids   []*Node
	LenMod int // 0 none; see encLen
	Raw    []byte
	Wrap   bool // primitive OCTET STRING whose content is itself BER (a control value): Kids hold the inner nodes
}

func (n *Node) clone() *Node {
	if n == nil {
		return nil
	}
	c := &Node{Cls: n.Cls, Cons: n.Cons, Tag: n.Tag, Data: append([]byte{}, n.Data...), LenMod: n.LenMod, Raw: n.Raw, Wrap: n.Wrap}
	for _, k := range n.Kids {
		c.Kids = append(c.Kids, k.clone())
	}
	return c
}

func parseNode(b []byte) (*Node, []byte, bool) {
	if len(b) < 2 {
		return nil, nil, false
	}
	id := b[0]
	n := &Node{Cls: int(id & 0xc0), Cons: id&0x20 != 0, Tag: int(id & 0x1f)}
	if n.Tag == 31 {
		return nil, nil, false
	}
	l := int(b[1])
	rest := b[2:]
	if l >= 128 {
		k := l - 128
		if k == 0 || k > 4 || len(rest) < k {
			return nil, nil, false
		}
		l = 0
		for i := 0; i < k; i++ {
			l = l<<8 | int(rest[i])
		}
		rest = rest[k:]
	}
	if len(rest) < l {
		return nil, nil, false
	}
	content := rest[:l]
	rest = rest[l:]
	if n.Cons {
		for len(content) > 0 {
			k, r2, ok := parseNode(content)
			if !ok {
				return nil, nil, false
			}
			n.Kids = append(n.Kids, k)
			content = r2
		}
	} else {
		n.Data = append([]byte{}, content...)
		// a control value wrapping a BER structure (paging, Behera): mutate inside it as well
		if n.Cls == 0 && n.Tag == 4 && len(content) >= 2 && content[0]&0x20 != 0 {
			if inner, r2, ok := parseNode(content); ok && len(r2) == 0 {
				n.Wrap = true // Data keeps the bytes as read (printers use it); encode() uses Kids
				n.Kids = []*Node{inner}
			}
		}
	}
	return n, rest, true
}

// unwrap turns a wrapper back into a plain primitive holding the encoded inner nodes
func (n *Node) unwrap() {
	if n.Wrap {
		var content []byte
		for _, k := range n.Kids {
			content = append(content, k.encode()...)
		}
		n.Data = content
		n.Kids = nil
		n.Wrap = false
	}
}

func encLenStd(l int) []byte {
	if l <= 127 {
		return []byte{byte(l)}
	}
	var ds []byte
	for v := l; v > 0; v >>= 8 {
		ds = append([]byte{byte(v)}, ds...)
	}
	return append([]byte{0x80 | byte(len(ds))}, ds...)
}

func (n *Node) encode() []byte {
	if n.Raw != nil {
		return n.Raw
	}
	var content []byte
	if n.Cons || n.Wrap {
		for _, k := range n.Kids {
			content = append(content, k.encode()...)
		}
	} else {
		content = n.Data
	}
	idb := byte(n.Cls) | byte(n.Tag&0x1f)
	if n.Cons {
		idb |= 0x20
	}
	out := []byte{idb}
	if n.Tag >= 31 {
		out[0] = byte(n.Cls) | 0x1f
		if n.Cons {
			out[0] |= 0x20
		}
		// high-tag-number form: base 128, most significant group first
		groups := []byte{byte(n.Tag & 0x7f)}
		for v := n.Tag >> 7; v > 0; v >>= 7 {
			groups = append([]byte{byte(v&0x7f) | 0x80}, groups...)
		}
		out = append(out, groups...)
	}
	l := len(content)
	switch n.LenMod {
	case 0:
		out = append(out, encLenStd(l)...)
	case 1: // non-minimal long form
		out = append(out, 0x82, byte(l>>8), byte(l))
	case 2: // indefinite with EOC
		out = append(out, 0x80)
		content = append(append([]byte{}, content...), 0, 0)
	case 3: // 0xFF
		out = append(out, 0xff)
	case 4: // overshoot by one
		out = append(out, encLenStd(l+1)...)
	case 5: // undershoot by one
		if l > 0 {
			out = append(out, encLenStd(l-1)...)
		} else {
			out = append(out, 0x81)
		}
	case 6: // 8 octets, negative int64
		out = append(out, 0x88, 0xff, 0xff, 0xff, 0xff, 0xff, 0xff, 0xff, byte(0xf0))
	case 7: // 8 octets = -1 (reads as indefinite)
		out = append(out, 0x88, 0xff, 0xff, 0xff, 0xff, 0xff, 0xff, 0xff, 0xff)
	case 8: // 9 length octets
		out = append(out, 0x89, 0, 0, 0, 0, 0, 0, 0, 0, byte(l))
	case 9: // declared length far beyond what follows (1 MiB; a 2 GiB declaration only costs memory)
		out = append(out, 0x83, 0x10, 0x00, 0x00)
	case 10: // indefinite without EOC
		out = append(out, 0x80)
	}
	return append(out, content...)
}

func replacements() []*Node {
	return []*Node{
		{Cls: 0, Tag: 2, Data: []byte{5}},
		{Cls: 0, Tag: 1, Data: []byte{0xff}},
		{Cls: 0, Tag: 4, Data: []byte("x")},
		{Cls: 0, Tag: 5},
		{Cls: 0, Cons: true, Tag: 16},
		{Cls: 0, Cons: true, Tag: 16, Kids: []*Node{{Cls: 0, Tag: 2, Data: []byte{1}}}},
		{Cls: 0, Cons: true, Tag: 17},
		{Cls: 0, Cons: true, Tag: 17, Kids: []*Node{{Cls: 0, Tag: 4, Data: []byte("s")}}},
		{Cls: 128, Tag: 0, Data: []byte("c")},
		{Cls: 128, Cons: true, Tag: 0, Kids: []*Node{{Cls: 0, Tag: 4, Data: []byte("o")}}},
		{Cls: 64, Tag: 2},
		{Cls: 64, Cons: true, Tag: 3, Kids: []*Node{{Cls: 0, Tag: 2, Data: []byte{1}}}},
		{Cls: 0, Tag: 10, Data: []byte{1}},
		{Cls: 0, Tag: 2, Data: []byte{1, 2, 3, 4, 5, 6, 7, 8, 9}},
		{Cls: 0, Tag: 4},
	}
}

// a mutation is a function applied to a cloned tree; paths address nodes
type path []int

func nodeAt(root *Node, p path) *Node {
	n := root
	for _, i := range p {
		n = n.Kids[i]
	}
	return n
}

func allPaths(n *Node, prefix path, out *[]path) {
	*out = append(*out, append(path{}, prefix...))
	for i, k := range n.Kids {
		allPaths(k, append(prefix, i), out)
	}
}

type mutation struct {
	name  string
	apply func(root *Node) bool
}

func mutationsAt(root *Node, p path) []mutation {
	var ms []mutation
	ps := fmt.Sprint([]int(p))
	target := nodeAt(root, p)
	get := func(r *Node) (*Node, *Node, int) { // node, parent, index
		if len(p) == 0 {
			return r, nil, 0
		}
		par := nodeAt(r, p[:len(p)-1])
		return par.Kids[p[len(p)-1]], par, p[len(p)-1]
	}
	for ri, rep := range replacements() {
		rep := rep
		ms = append(ms, mutation{fmt.Sprintf("replace%s:%d", ps, ri), func(r *Node) bool {
			n, _, _ := get(r)
			*n = *rep.clone()
			return true
		}})
	}
	for lm := 1; lm <= 10; lm++ {
		lm := lm
		ms = append(ms, mutation{fmt.Sprintf("len%s:%d", ps, lm), func(r *Node) bool {
			n, _, _ := get(r)
			n.LenMod = lm
			return true
		}})
	}
	for _, cl := range []int{0, 64, 128, 192} {
		cl := cl
		if cl != target.Cls {
			ms = append(ms, mutation{fmt.Sprintf("class%s:%d", ps, cl), func(r *Node) bool { n, _, _ := get(r); n.Cls = cl; return true }})
		}
	}
	// 256+t, 512+t, 2^14+t, 2^28+t: tag numbers that are a supported one modulo 2^8
	for _, tg := range []int{0, 1, 2, 3, 4, 5, 6, 8, 9, 10, 12, 16, 17, 19, 22, 23, 24, 30, 31,
		256 + target.Tag, 512 + target.Tag, 1<<14 + target.Tag, 1<<28 + target.Tag, 128 + target.Tag} {
		tg := tg
		if tg != target.Tag {
			ms = append(ms, mutation{fmt.Sprintf("tag%s:%d", ps, tg), func(r *Node) bool { n, _, _ := get(r); n.Tag = tg; return true }})
		}
	}
	ms = append(ms, mutation{"flipcons" + ps, func(r *Node) bool {
		n, _, _ := get(r)
		n.unwrap()
		if n.Cons {
			n.Cons = false
			var content []byte
			for _, k := range n.Kids {
				content = append(content, k.encode()...)
			}
			n.Data = content
			n.Kids = nil
		} else {
			n.Cons = true // content bytes become the (probably malformed) children
			n.Raw = nil
			idb := byte(n.Cls) | byte(n.Tag&0x1f) | 0x20
			n.Raw = append(append([]byte{idb}, encLenStd(len(n.Data))...), n.Data...)
		}
		return true
	}})
	if !target.Cons {
		ms = append(ms, mutation{"empty" + ps, func(r *Node) bool { n, _, _ := get(r); n.unwrap(); n.Data = nil; return true }})
		ms = append(ms, mutation{"long" + ps, func(r *Node) bool {
			n, _, _ := get(r)
			n.unwrap()
			n.Data = []byte{1, 2, 3, 4, 5, 6, 7, 8, 9}
			return true
		}})
		ms = append(ms, mutation{"hibyte" + ps, func(r *Node) bool { n, _, _ := get(r); n.unwrap(); n.Data = []byte{0xff, 0xfe}; return true }})
		if target.Wrap {
			// the wrapper itself becomes a constructed octet string (ber accepts both forms)
			ms = append(ms, mutation{"wrapcons" + ps, func(r *Node) bool { n, _, _ := get(r); n.Wrap = false; n.Cons = true; return true }})
		}
	} else {
		ms = append(ms, mutation{"nokids" + ps, func(r *Node) bool { n, _, _ := get(r); n.Kids = nil; return true }})
		ms = append(ms, mutation{"firstkid" + ps, func(r *Node) bool {
			n, _, _ := get(r)
			if len(n.Kids) > 1 {
				n.Kids = n.Kids[:1]
				return true
			}
			return false
		}})
		ms = append(ms, mutation{"extraint" + ps, func(r *Node) bool {
			n, _, _ := get(r)
			n.Kids = append(n.Kids, &Node{Cls: 0, Tag: 2, Data: []byte{7}})
			return true
		}})
		ms = append(ms, mutation{"extrafront" + ps, func(r *Node) bool {
			n, _, _ := get(r)
			n.Kids = append([]*Node{{Cls: 0, Tag: 4, Data: []byte("z")}}, n.Kids...)
			return true
		}})
	}
	if len(p) > 0 {
		ms = append(ms, mutation{"delete" + ps, func(r *Node) bool {
			_, par, i := get(r)
			par.Kids = append(par.Kids[:i], par.Kids[i+1:]...)
			return true
		}})
		ms = append(ms, mutation{"dup" + ps, func(r *Node) bool {
			n, par, i := get(r)
			kids := append([]*Node{}, par.Kids[:i+1]...)
			kids = append(kids, n.clone())
			par.Kids = append(kids, par.Kids[i+1:]...)
			return true
		}})
		ms = append(ms, mutation{"swap" + ps, func(r *Node) bool {
			_, par, i := get(r)
			if i+1 < len(par.Kids) {
				par.Kids[i], par.Kids[i+1] = par.Kids[i+1], par.Kids[i]
				return true
			}
			return false
		}})
	}
	return ms
}

func cmdMutate(args []string) int {
	seed, _ := strconv.ParseUint(args[0], 10, 64)
	tier := args[1]
	rng := NewRNG(seed)
	out := bufio.NewWriterSize(os.Stdout, 1<<20)
	defer out.Flush()
	sc := bufio.NewScanner(os.Stdin)
	sc.Buffer(make([]byte, 1<<20), 1<<26)
	id := 0
	seen := map[string]bool{}
	emit := func(b []byte) {
		h := hx(b)
		if seen[h] {
			return
		}
		seen[h] = true
		id++
		fmt.Fprintf(out, "decode m%d %s\n", id, h)
	}
	for sc.Scan() {
		f := strings.Fields(sc.Text())
		if len(f) == 0 {
			continue
		}
		raw := unhx(f[len(f)-1])
		root, rest, ok := parseNode(raw)
		if !ok || len(rest) != 0 {
			fmt.Fprintln(os.Stderr, "mutate: cannot parse canonical frame", f[len(f)-1])
			return 1
		}
		emit(root.encode())
		var paths []path
		allPaths(root, nil, &paths)
		type pm struct {
			p path
			m mutation
		}
		var singles []pm
		for _, p := range paths {
			for _, m := range mutationsAt(root, p) {
				c := root.clone()
				if m.apply(c) {
					emit(c.encode())
					singles = append(singles, pm{p, m})
				}
			}
		}
		// double-point: exhaustive inside the controls subtree (path starts with 2)
		inCtl := func(p path) bool { return len(p) >= 1 && p[0] == 2 }
		var ctlm []pm
		for _, s := range singles {
			if inCtl(s.p) {
				ctlm = append(ctlm, s)
			}
		}
		doPair := func(a, b pm) {
			c := root.clone()
			func() {
				defer func() { _ = recover() }() // second path may no longer exist
				if a.m.apply(c) && b.m.apply(c) {
					emit(c.encode())
				}
			}()
		}
		if tier == "thorough" {
			for i := range ctlm {
				for j := range ctlm {
					if i != j {
						doPair(ctlm[i], ctlm[j])
					}
				}
			}
		} else {
			for k := 0; k < 3*len(ctlm); k++ {
				doPair(ctlm[rng.Intn(len(ctlm)+0*k)%max1(len(ctlm))], ctlm[rng.Intn(max1(len(ctlm)))])
			}
		}
		samples := 200
		if tier == "thorough" {
			samples = 20000
		}
		for k := 0; k < samples && len(singles) > 1; k++ {
			doPair(singles[rng.Intn(len(singles))], singles[rng.Intn(len(singles))])
		}
	}
	// raw random byte streams, and random streams with a plausible header
	nraw := 2000
	if tier == "thorough" {
		nraw = 100000
	}
	for i := 0; i < nraw; i++ {
		l := rng.Intn(40)
		b := rng.Bytes(l)
		if rng.Chance(60) && l > 4 {
			b[0] = 0x30
			b[1] = byte(l - 2)
			if rng.Chance(70) {
				b[2], b[3], b[4] = 2, 1, byte(rng.Intn(5))
			}
			if rng.Chance(50) && l > 6 {
				b[5] = []byte{0x60, 0x63, 0x66, 0x68, 0x4a, 0x77, 0x42, 0x6a, 0x62}[rng.Intn(9)]
				b[6] = byte(l - 7)
			}
		}
		emit(b)
	}
	return 0
}

func max1(n int) int {
	if n < 1 {
		return 1
	}
	return n
}
