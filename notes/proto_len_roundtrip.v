From Coq Require Import List NArith ZArith Lia Bool.
From Coq Require Import ZifyN ZifyNat ZifyBool.
Import ListNotations.
Ltac Zify.zify_post_hook ::= Z.div_mod_to_equations.
Open Scope N_scope.

(* big-endian base-256 digits, minimal, at least one digit *)
Fixpoint be_digits (fuel:nat) (n:N) : list N :=
  match fuel with
  | O => [n mod 256]
  | S f => if n <? 256 then [n] else be_digits f (n / 256) ++ [n mod 256]
  end.

Definition enc_len (n:N) : list N :=
  let ds := be_digits 8 n in
  if n <=? 127 then ds else (128 + N.of_nat (length ds)) :: ds.

Fixpoint be_value (acc:N) (bs:list N) : N :=
  match bs with [] => acc | b :: r => be_value (acc*256 + b) r end.

Inductive res (A:Type) := Ok (a:A) | Err.
Arguments Ok {A}. Arguments Err {A}.

(* definite lengths only in this prototype; returns (length, rest) *)
Definition read_len (bs:list N) : res (N * list N) :=
  match bs with
  | [] => Err
  | b :: r =>
    if b =? 255 then Err else
    if b =? 128 then Err (* indefinite: not in prototype *) else
    if b <? 128 then Ok (b, r) else
    let k := N.to_nat (b - 128) in
    if (8 <? b - 128) then Err else
    if (length r <? k)%nat then Err else
    let v := be_value 0 (firstn k r) in
    if 2^63 <=? v then Err else Ok (v, skipn k r)
  end.

Lemma be_value_app acc a b : be_value acc (a ++ b) = be_value (be_value acc a) b.
Proof. revert acc; induction a; simpl; auto. Qed.

Lemma be_digits_value fuel n : n < 256 ^ (N.of_nat (S fuel)) -> be_value 0 (be_digits fuel n) = n.
Proof.
  revert n; induction fuel as [|f IH]; intros n H.
  - simpl in *. change (256 ^ 1) with 256 in H. rewrite N.mod_small by lia. lia.
  - cbn [be_digits]. destruct (n <? 256) eqn:E.
    + simpl. lia.
    + rewrite be_value_app, IH.
      * simpl. lia.
      * rewrite Nat2N.inj_succ, N.pow_succ_r' in H. 
        apply N.div_lt_upper_bound; lia.
Qed.

Lemma be_digits_len fuel n : (1 <= length (be_digits fuel n) <= S fuel)%nat.
Proof.
  revert n; induction fuel as [|f IH]; intros n; cbn [be_digits].
  - simpl; lia.
  - destruct (n <? 256); simpl; [lia|]. rewrite app_length; simpl. specialize (IH (n/256)). lia.
Qed.

Lemma be_digits_bytes fuel n : n < 256 ^ (N.of_nat (S fuel)) -> Forall (fun b => b < 256) (be_digits fuel n).
Proof.
  revert n; induction fuel as [|f IH]; intros n H; cbn [be_digits].
  - constructor; [apply N.mod_lt; lia|constructor].
  - destruct (n <? 256) eqn:E.
    + constructor; [lia|constructor].
    + apply Forall_app; split.
      * apply IH. rewrite Nat2N.inj_succ, N.pow_succ_r' in H. apply N.div_lt_upper_bound; lia.
      * constructor; [apply N.mod_lt; lia|constructor].
Qed.

Theorem read_len_enc_len n rest : n < 2^63 -> read_len (enc_len n ++ rest) = Ok (n, rest).
Proof.
  intros H. unfold enc_len.
  pose proof (be_digits_len 8 n) as HL.
  destruct (n <=? 127) eqn:E.
  - assert (be_digits 8 n = [n]) as ->. { cbn [be_digits]. destruct (n <? 256) eqn:E2; [reflexivity|lia]. }
    simpl. destruct (n =? 255) eqn:?; [lia|]. destruct (n =? 128) eqn:?; [lia|]. destruct (n <? 128) eqn:?; [reflexivity|lia].
  - set (ds := be_digits 8 n) in *.
    cbn [app read_len].
    destruct (128 + N.of_nat (length ds) =? 255) eqn:?; [lia|].
    destruct (128 + N.of_nat (length ds) =? 128) eqn:?; [lia|].
    destruct (128 + N.of_nat (length ds) <? 128) eqn:?; [lia|].
    replace (128 + N.of_nat (length ds) - 128) with (N.of_nat (length ds)) by lia.
    rewrite Nat2N.id.
    (* 8 digits suffice because n < 2^63 *)
    assert (length ds <= 8)%nat as HL8.
    { subst ds. clear -H. 
      (* n < 256^8 so the 9th digit is never produced *)
      assert (n < 256^8) as Hn8 by (change (256^8) with (2^64); lia).
      assert (forall f m, m < 256 ^ N.of_nat (S f) -> (length (be_digits (S f) m) <= S f)%nat) as G.
      { induction f as [|f IH]; intros m Hm; cbn [be_digits].
        - change (256 ^ N.of_nat 1) with 256 in Hm. destruct (m <? 256) eqn:?; [simpl; lia|lia].
        - destruct (m <? 256) eqn:?; [simpl; lia|]. rewrite app_length; simpl.
          assert (m / 256 < 256 ^ N.of_nat (S f)) as Hdiv.
          { rewrite (Nat2N.inj_succ (S f)), N.pow_succ_r' in Hm. apply N.div_lt_upper_bound; lia. }
          specialize (IH _ Hdiv). cbn [be_digits] in IH. lia. }
      apply (G 7%nat). exact Hn8. }
    destruct (8 <? N.of_nat (length ds)) eqn:?; [lia|].
    rewrite app_length. destruct (length ds + length rest <? length ds)%nat eqn:?; [lia|].
    rewrite firstn_app, Nat.sub_diag, firstn_all, firstn_O, app_nil_r.
    rewrite skipn_app, Nat.sub_diag, skipn_all, skipn_O. cbn [app].
    subst ds. rewrite be_digits_value by (change (256 ^ N.of_nat 9) with (2^72); lia).
    destruct (2^63 <=? n) eqn:?; [lia|reflexivity].
Qed.
Print Assumptions read_len_enc_len.
