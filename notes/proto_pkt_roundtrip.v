From Coq Require Import List NArith ZArith Lia Bool.
From Coq Require Import ZifyN ZifyNat ZifyBool.
Require Import P.
Import ListNotations.
Ltac Zify.zify_post_hook ::= Z.div_mod_to_equations.
Open Scope N_scope.

Definition bytes := list N.
Inductive pkt := Pkt (cls:N) (cons:bool) (tag:N) (data:bytes) (kids:list pkt).

Definition p_data p := match p with Pkt _ _ _ d _ => d end.
Definition p_kids p := match p with Pkt _ _ _ _ k => k end.
Definition enc_ident (cls:N) (cons:bool) (tag:N) : bytes := [cls*64 + (if cons then 32 else 0) + tag].
Definition bytes_of (p:pkt) : bytes :=
  match p with Pkt c k t d _ => enc_ident c k t ++ enc_len (N.of_nat (length d)) ++ d end.

Definition read_ident (bs:bytes) : res ((N*bool*N) * bytes) :=
  match bs with
  | [] => Err
  | b :: r => if (b mod 32 =? 31) then Err else Ok ((b / 64, (b / 32) mod 2 =? 1, b mod 32), r)
  end.

(* reader: returns packet and remaining bytes *)
Fixpoint read_pkt (fuel:nat) (bs:bytes) {struct fuel} : res (pkt * bytes) :=
  match fuel with O => Err | S f =>
  match read_ident bs with Err => Err | Ok ((c,k,t), r1) =>
  match read_len r1 with Err => Err | Ok (n, r2) =>
    let n' := N.to_nat n in
    if (length r2 <? n')%nat then Err else
    let content := firstn n' r2 in
    let rest := skipn n' r2 in
    if k then
      (fix kidsloop (g:nat) (cs:bytes) (acc:list pkt) {struct g} : res (pkt*bytes) :=
         match cs with
         | [] => Ok (Pkt c k t content (rev acc), rest)
         | _ => match g with O => Err | S g' =>
                 match read_pkt f cs with Err => Err | Ok (ch, cs') => kidsloop g' cs' (ch :: acc) end end
         end) (length content) content []
    else Ok (Pkt c k t content [], rest)
  end end end.

(* well-formedness of wire packets *)
Fixpoint depth (p:pkt) : nat := match p with Pkt _ _ _ _ ks => S (fold_right (fun k a => Nat.max (depth k) a) 0%nat ks) end.

Fixpoint wf (p:pkt) : Prop :=
  match p with Pkt c k t d ks =>
    c < 4 /\ t < 31 /\ N.of_nat (length d) < 2^63 /\
    (if k then d = concat (map bytes_of ks) else ks = []) /\
    (fix all (l:list pkt) : Prop := match l with [] => True | x :: r => wf x /\ all r end) ks
  end.

Lemma read_ident_enc c k t rest : c < 4 -> t < 31 -> read_ident (enc_ident c k t ++ rest) = Ok ((c,k,t), rest).
Proof.
  intros Hc Ht. unfold enc_ident, read_ident. cbn [app].
  set (b := c*64 + (if k then 32 else 0) + t).
  assert (b mod 32 = t) as E1 by (subst b; destruct k; lia).
  assert (b / 64 = c) as E2 by (subst b; destruct k; lia).
  assert ((b/32) mod 2 = if k then 1 else 0) as E3 by (subst b; destruct k; lia).
  rewrite E1, E2, E3. destruct (t =? 31) eqn:?; [lia|]. destruct k; reflexivity.
Qed.

Lemma bytes_of_nonempty p : bytes_of p <> [].
Proof. destruct p; simpl; discriminate. Qed.

Section Ind.
  Variable P : pkt -> Prop.
  Hypothesis H : forall c k t d ks, Forall P ks -> P (Pkt c k t d ks).
  Fixpoint pkt_ind' (p:pkt) : P p :=
    match p with Pkt c k t d ks =>
      H c k t d ks ((fix go (l:list pkt) : Forall P l := match l with [] => Forall_nil _ | x :: r => Forall_cons _ (pkt_ind' x) (go r) end) ks)
    end.
End Ind.

Lemma wf_kids c k t d ks : wf (Pkt c k t d ks) -> Forall wf ks.
Proof. simpl. intros (_&_&_&_&Hall). induction ks as [|x r IH]; constructor; destruct Hall; auto. Qed.

Lemma max_le_fold ks x : In x ks -> (depth x <= fold_right (fun k a => Nat.max (depth k) a) 0 ks)%nat.
Proof. induction ks as [|y r IH]; simpl; [tauto|]. intros [->|Hin]; [lia|]. specialize (IH Hin). lia. Qed.

Theorem read_pkt_bytes_of : forall p, wf p -> forall fuel rest, (depth p <= fuel)%nat ->
   read_pkt fuel (bytes_of p ++ rest) = Ok (p, rest).
Proof.
  induction p as [c k t d ks IH] using pkt_ind'. intros Hwf fuel rest Hfuel.
  destruct fuel as [|f]; [simpl in Hfuel; lia|].
  pose proof (wf_kids _ _ _ _ _ Hwf) as Hkwf.
  simpl in Hwf. destruct Hwf as (Hc & Ht & Hlen & Hshape & _).
  cbn [read_pkt bytes_of]. rewrite <- !app_assoc.
  rewrite read_ident_enc by assumption.
  rewrite read_len_enc_len by assumption.
  rewrite Nat2N.id, app_length.
  destruct (length d + length rest <? length d)%nat eqn:?; [lia|].
  rewrite firstn_app, Nat.sub_diag, firstn_all, firstn_O, app_nil_r.
  rewrite skipn_app, Nat.sub_diag, skipn_all, skipn_O. cbn [app].
  destruct k.
  - (* constructed: generalise the loop *)
    subst d.
    assert (forall g acc done todo, ks = done ++ todo -> acc = rev done ->
              (length todo <= g)%nat ->
      (fix kidsloop (g:nat) (cs:bytes) (acc:list pkt) {struct g} : res (pkt*bytes) :=
         match cs with
         | [] => Ok (Pkt c true t (concat (map bytes_of ks)) (rev acc), rest)
         | _ => match g with O => Err | S g' =>
                 match read_pkt f cs with Err => Err | Ok (ch, cs') => kidsloop g' cs' (ch :: acc) end end
         end) g (concat (map bytes_of todo)) acc = Ok (Pkt c true t (concat (map bytes_of ks)) ks, rest)) as Loop.
    { intros g acc done todo. revert g acc done.
      induction todo as [|x todo IHt]; intros g acc done Hks Hacc Hg.
      - simpl. destruct g; rewrite Hacc, rev_involutive; rewrite app_nil_r in Hks; subst; reflexivity.
      - destruct g as [|g']; [simpl in Hg; lia|].
        cbn [map concat].
        assert (In x ks) as Hin by (rewrite Hks; apply in_or_app; right; left; reflexivity).
        destruct (bytes_of x ++ concat (map bytes_of todo)) eqn:Eb.
        { exfalso. destruct (bytes_of x) eqn:E2; [eapply bytes_of_nonempty; eauto|discriminate]. }
        rewrite <- Eb.
        rewrite Forall_forall in IH, Hkwf.
        rewrite (IH x Hin (Hkwf x Hin)).
        2:{ simpl in Hfuel. pose proof (max_le_fold ks x Hin). lia. }
        apply (IHt g' (x :: acc) (done ++ [x])).
        + rewrite <- app_assoc. exact Hks.
        + rewrite rev_app_distr. simpl. subst acc. reflexivity.
        + simpl in Hg. lia. }
    apply (Loop (length (concat (map bytes_of ks))) [] [] ks); auto.
    clear. induction ks as [|x r IH]; simpl; [lia|]. rewrite app_length.
    assert (1 <= length (bytes_of x))%nat. { destruct x; simpl. lia. } lia.
  - subst ks. reflexivity.
Qed.
Print Assumptions read_pkt_bytes_of.
